//! C14: song listings.  `songs <command-ident> <hex wire reply>`: the wire bytes go through the
//! REAL parser, the resulting frame through the real `Command::response` of the named command, and
//! every public field / accessor of the decoded songs is printed canonically (never floats, never
//! hash order).
use mpd_client::commands::{Command, CurrentSong, Find, GetPlaylist, ListAllIn, Queue, QueueRange, SongPosition};
use mpd_client::filter::Filter;
use mpd_client::responses::{Song, SongInQueue, TypedResponseError};
use mpd_client::tag::Tag;

use crate::framecases::response_of_wire;
use crate::tagcases::tag_name;
use crate::util::*;

fn opt<T>(o: Option<T>, f: impl FnOnce(T) -> String) -> String {
    match o {
        Some(x) => f(x),
        None => "~".into(),
    }
}

fn hexlist(l: &[String]) -> String {
    let v: Vec<String> = l.iter().map(|s| hex(s.as_bytes())).collect();
    format!("[{}]", v.join(";"))
}

pub fn show_song(s: &Song) -> String {
    let mut tags: Vec<(Vec<u8>, &Vec<String>)> = s.tags.iter().map(|(t, v)| (tag_name(t), v)).collect();
    tags.sort();
    let tags: Vec<String> = tags
        .iter()
        .map(|(n, v)| format!("{}={}", String::from_utf8_lossy(n), hexlist(v)))
        .collect();
    let (disc, track) = s.number();
    format!(
        "url={},dur={},tags={{{}}},fmt={},lm={},art={},aart={},alb={},tit={},num={}.{},path={}",
        hex(s.url.as_bytes()),
        opt(s.duration, |d| d.as_nanos().to_string()),
        tags.join("&"),
        opt(s.format.as_ref(), |f| hex(f.as_bytes())),
        opt(s.last_modified.as_ref(), |t| hex(t.raw().as_bytes())),
        hexlist(s.artists()),
        hexlist(s.album_artists()),
        opt(s.album(), |a| hex(a.as_bytes())),
        opt(s.title(), |a| hex(a.as_bytes())),
        disc,
        track,
        hex(s.file_path().to_string_lossy().as_bytes()),
    )
}

pub fn show_qsong(q: &SongInQueue) -> String {
    format!(
        "pos={},id={},prio={},range={},{}",
        q.position.0,
        q.id.0,
        q.priority,
        opt(q.range, |r| format!("{}-{}", r.from.as_nanos(), opt(r.to, |t| t.as_nanos().to_string()))),
        show_song(&q.song)
    )
}

/// Undo Rust's `{:?}` escaping of a `str` (input without the surrounding quotes).
fn unescape_debug(s: &str) -> Vec<u8> {
    let mut out = String::new();
    let mut it = s.chars().peekable();
    while let Some(c) = it.next() {
        if c != '\\' {
            out.push(c);
            continue;
        }
        match it.next() {
            Some('n') => out.push('\n'),
            Some('t') => out.push('\t'),
            Some('r') => out.push('\r'),
            Some('0') => out.push('\0'),
            Some('u') => {
                let mut v = 0u32;
                it.next(); // {
                for d in it.by_ref() {
                    if d == '}' {
                        break;
                    }
                    v = v * 16 + d.to_digit(16).unwrap_or(0);
                }
                out.push(char::from_u32(v).unwrap_or('?'));
            }
            Some(o) => out.push(o),
            None => {}
        }
    }
    out.into_bytes()
}

/// `err <kind> ...` from the Display text (the kind enum is private).
pub fn show_err(e: &TypedResponseError) -> String {
    let s = e.to_string();
    if let Some(r) = s.strip_prefix("field \"") {
        if let Some(f) = r.strip_suffix("\" is required but missing") {
            return format!("err missing {}", f);
        }
    }
    if let Some(r) = s.strip_prefix("expected field \"") {
        if let Some((exp, found)) = r.split_once("\" but found \"") {
            return format!("err unexpected_field {} {}", exp, found.strip_suffix('"').unwrap_or(found));
        }
    }
    if let Some(r) = s.strip_prefix("invalid value \"") {
        if let Some(i) = r.rfind("\" for field \"") {
            let v = &r[..i];
            let f = &r[i + "\" for field \"".len()..];
            return format!("err invalid_value {} {}", f.strip_suffix('"').unwrap_or(f), hex(&unescape_debug(v)));
        }
    }
    if s == "invalid response" {
        return "err other".into();
    }
    format!("err ?{}", hex(s.as_bytes()))
}

fn multi_q(r: Result<Vec<SongInQueue>, TypedResponseError>) -> String {
    match r {
        Ok(v) => format!("ok [{}]", v.iter().map(show_qsong).collect::<Vec<_>>().join("|")),
        Err(e) => show_err(&e),
    }
}

fn multi(r: Result<Vec<Song>, TypedResponseError>) -> String {
    match r {
        Ok(v) => format!("ok [{}]", v.iter().map(show_song).collect::<Vec<_>>().join("|")),
        Err(e) => show_err(&e),
    }
}

pub fn run(toks: &[&str]) -> String {
    if toks.len() < 3 {
        return "bad-case".into();
    }
    let wire = unhex(toks[2]);
    let Some(resp) = response_of_wire(&wire) else { return "noresponse".into() };
    let Some(Ok(frame)) = resp.into_iter().next() else { return "noframe".into() };
    let cmd = toks[1].to_string();
    let res = catch(move || match cmd.as_str() {
        "Queue" => multi_q(Queue.response(frame)),
        "QueueRange" => multi_q(QueueRange::song(SongPosition(0)).response(frame)),
        "CurrentSong" => match CurrentSong.response(frame) {
            Ok(None) => "ok ~".into(),
            Ok(Some(q)) => format!("ok [{}]", show_qsong(&q)),
            Err(e) => show_err(&e),
        },
        "Find" => {
            // the songs listed are the songs decoded, in the server's order, however the request was configured (sort by any tag,
            // any window): the reply is not re-ordered, filtered or cut on the client
            let base = || Find::new(Filter::tag(Tag::Artist, "x"));
            let plain = multi(base().response(frame.clone()));
            let variants: Vec<(&str, Find)> = vec![
                ("sort(Title)", base().sort(Tag::Title)),
                ("sort(Artist)", base().sort(Tag::Artist)),
                ("sort(Other(\"Last-Modified\"))", base().sort(Tag::Other("Last-Modified".into()))),
                ("sort(Track).window(0..2)", base().sort(Tag::Track).window(0..2)),
                ("window(1..)", base().window(1..)),
                ("window(..=usize::MAX)", base().window(..=usize::MAX)),
                ("window(7..3)", base().window(7..3)),
            ];
            for (name, cmd) in variants {
                let f2 = frame.clone();
                let got = match catch(move || multi(cmd.response(f2))) {
                    Ok(s) => s,
                    Err(_) => "PANIC".to_string(),
                };
                if got != plain {
                    return format!("INCONSISTENT Find::new(f).{name}.response(reply) differs from Find::new(f).response(reply): {} vs {}", got.replace(' ', "_"), plain.replace(' ', "_"));
                }
            }
            plain
        }
        "QueueRangeAll" => multi_q(QueueRange::range(..).response(frame)),
        "GetPlaylist" => multi(GetPlaylist("p").response(frame)),
        "ListAllIn" => multi(ListAllIn::root().response(frame)),
        other => format!("unknown-command {}", other),
    });
    match res {
        Ok(s) => s,
        Err(_) => "PANIC".into(),
    }
}
