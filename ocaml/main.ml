(* main.ml — driver of the extracted model: reads a case file, one case per line, converts the
   line to [list N], calls the extracted [Mdl.dispatch], prints the resulting line.
   This file and the conversions below are the whole of the hand-written OCaml glue. *)
let rec pos_of_int (i : int) : Mdl.positive =
  if i = 1 then Mdl.XH
  else if i land 1 = 0 then Mdl.XO (pos_of_int (i lsr 1))
  else Mdl.XI (pos_of_int (i lsr 1))

let n_of_int (i : int) : Mdl.n = if i = 0 then Mdl.N0 else Mdl.Npos (pos_of_int i)

let rec int_of_pos (p : Mdl.positive) : int =
  match p with Mdl.XH -> 1 | Mdl.XO q -> 2 * int_of_pos q | Mdl.XI q -> 2 * int_of_pos q + 1

let int_of_n (x : Mdl.n) : int = match x with Mdl.N0 -> 0 | Mdl.Npos p -> int_of_pos p

let list_of_string (s : string) : Mdl.n list =
  let rec go i acc = if i < 0 then acc else go (i - 1) (n_of_int (Char.code s.[i]) :: acc) in
  go (String.length s - 1) []

let string_of_list (l : Mdl.n list) : string =
  let b = Buffer.create 256 in
  List.iter (fun x -> Buffer.add_char b (Char.chr (int_of_n x land 255))) l;
  Buffer.contents b

let () =
  let ic = open_in Sys.argv.(1) in
  (try
     while true do
       let line = input_line ic in
       if line <> "" then begin
         print_string (string_of_list (Mdl.dispatch (list_of_string line)));
         print_newline ()
       end
     done
   with End_of_file -> ());
  close_in ic
